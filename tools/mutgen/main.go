// mutgen enumerates small syntactic mutants of the non-test Go sources under a repository root and prints one
// JSON line per mutant: a byte-range replacement on the original file. Development aid for measuring which
// constructs of /repo no rule of the checker looks at (tools/mutcov.py applies each mutant to a scratch copy and
// runs the checker on it). Standard library only.
package main

import (
	"encoding/json"
	"fmt"
	"go/ast"
	"go/parser"
	"go/token"
	"os"
	"path/filepath"
	"strconv"
	"strings"
)

type mutant struct {
	File  string `json:"file"`
	Start int    `json:"start"`
	End   int    `json:"end"`
	Repl  string `json:"repl"`
	Op    string `json:"op"`
	Func  string `json:"func"`
	Line  int    `json:"line"`
	Orig  string `json:"orig"`
}

var binSwap = map[token.Token]string{
	token.ADD: "-", token.SUB: "+", token.MUL: "/", token.QUO: "*",
	token.LSS: "<=", token.LEQ: "<", token.GTR: ">=", token.GEQ: ">",
	token.EQL: "!=", token.NEQ: "==", token.LAND: "||", token.LOR: "&&",
	token.ADD_ASSIGN: "-=", token.SUB_ASSIGN: "+=", token.MUL_ASSIGN: "/=", token.QUO_ASSIGN: "*=",
}

var nameSwap = map[string]string{
	"minIndex": "maxIndex", "maxIndex": "minIndex", "MinIndex": "MaxIndex", "MaxIndex": "MinIndex",
	"positiveValueStore": "negativeValueStore", "negativeValueStore": "positiveValueStore",
	"min": "max", "max": "min", "Min": "Max", "Max": "Min",
	"gamma": "indexOffset", "indexOffset": "gamma",
	"PositiveValues": "NegativeValues", "NegativeValues": "PositiveValues",
	"Floor": "Ceil", "Ceil": "Floor", "minPageIndex": "pageLenLog2",
	"sum": "sumCompensation", "count": "sum",
	"FlagTypePositiveStore": "FlagTypeNegativeStore", "FlagTypeNegativeStore": "FlagTypePositiveStore",
}

func main() {
	root := os.Args[1]
	fset := token.NewFileSet()
	enc := json.NewEncoder(os.Stdout)
	filepath.Walk(root, func(path string, info os.FileInfo, err error) error {
		if err != nil {
			return nil
		}
		if info.IsDir() {
			if n := info.Name(); n == ".git" || n == "vendor" || n == "testdata" {
				return filepath.SkipDir
			}
			return nil
		}
		if !strings.HasSuffix(path, ".go") || strings.HasSuffix(path, "_test.go") || strings.HasSuffix(path, ".pb.go") {
			return nil
		}
		src, err := os.ReadFile(path)
		if err != nil {
			return nil
		}
		f, err := parser.ParseFile(fset, path, src, 0)
		if err != nil {
			return nil
		}
		rel, _ := filepath.Rel(root, path)
		off := func(p token.Pos) int { return fset.Position(p).Offset }
		for _, d := range f.Decls {
			fd, ok := d.(*ast.FuncDecl)
			if !ok || fd.Body == nil {
				continue
			}
			fname := fd.Name.Name
			if fd.Recv != nil && len(fd.Recv.List) == 1 {
				t := fd.Recv.List[0].Type
				if s, ok := t.(*ast.StarExpr); ok {
					t = s.X
				}
				if id, ok := t.(*ast.Ident); ok {
					fname = id.Name + "." + fname
				}
			}
			emit := func(start, end int, repl, op string, pos token.Pos) {
				enc.Encode(mutant{File: rel, Start: start, End: end, Repl: repl, Op: op, Func: fname, Line: fset.Position(pos).Line, Orig: string(src[start:end])})
			}
			ast.Inspect(fd.Body, func(n ast.Node) bool {
				switch n := n.(type) {
				case *ast.BinaryExpr:
					if r, ok := binSwap[n.Op]; ok {
						s := off(n.OpPos)
						emit(s, s+len(n.Op.String()), r, "binop", n.OpPos)
					}
				case *ast.AssignStmt:
					if r, ok := binSwap[n.Tok]; ok {
						s := off(n.TokPos)
						emit(s, s+len(n.Tok.String()), r, "assignop", n.TokPos)
					}
					if n.Tok != token.DEFINE {
						emit(off(n.Pos()), off(n.End()), "", "delstmt", n.Pos())
					}
				case *ast.IncDecStmt:
					emit(off(n.Pos()), off(n.End()), "", "delstmt", n.Pos())
				case *ast.ExprStmt:
					emit(off(n.Pos()), off(n.End()), "", "delstmt", n.Pos())
				case *ast.IfStmt:
					s, e := off(n.Cond.Pos()), off(n.Cond.End())
					emit(s, e, "!("+string(src[s:e])+")", "negcond", n.Cond.Pos())
				case *ast.ForStmt:
					if n.Cond != nil {
						if b, ok := n.Cond.(*ast.BinaryExpr); ok {
							_ = b
						}
					}
				case *ast.BasicLit:
					if n.Kind == token.INT {
						if v, err := strconv.ParseInt(n.Value, 0, 64); err == nil {
							r := fmt.Sprint(v + 1)
							if v == 1 {
								r = "0"
							}
							emit(off(n.Pos()), off(n.End()), r, "intlit", n.Pos())
						}
					}
				case *ast.UnaryExpr:
					if n.Op == token.SUB {
						s := off(n.OpPos)
						emit(s, s+1, "", "unminus", n.OpPos)
					}
					if n.Op == token.NOT {
						s := off(n.OpPos)
						emit(s, s+1, "", "unnot", n.OpPos)
					}
				case *ast.BranchStmt:
					if n.Label == nil {
						switch n.Tok {
						case token.BREAK:
							emit(off(n.Pos()), off(n.End()), "continue", "branch", n.Pos())
						case token.CONTINUE:
							emit(off(n.Pos()), off(n.End()), "break", "branch", n.Pos())
						}
					}
				case *ast.SelectorExpr:
					if r, ok := nameSwap[n.Sel.Name]; ok {
						emit(off(n.Sel.Pos()), off(n.Sel.End()), r, "nameswap", n.Sel.Pos())
					}
				case *ast.ReturnStmt:
					if len(n.Results) == 1 {
						if id, ok := n.Results[0].(*ast.Ident); ok && (id.Name == "true" || id.Name == "false") {
							r := "true"
							if id.Name == "true" {
								r = "false"
							}
							emit(off(id.Pos()), off(id.End()), r, "retbool", id.Pos())
						}
					}
				}
				return true
			})
		}
		return nil
	})
}
