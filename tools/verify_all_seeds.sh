#!/bin/bash
# verifies every /tmp/seedout/<id>/<X> seed not yet verified; writes /tmp/seedout/verify/<id>_<X>.log
mkdir -p /tmp/seedout/verify
for d in /tmp/seedout/C*/[AB]; do
  id=$(basename $(dirname $d)); x=$(basename $d)
  out=/tmp/seedout/verify/${id}_${x}.log
  [ -s "$out" ] && continue
  [ -f "$d/patch.diff" ] && [ -f "$d/demo_test.go" ] || continue
  pk=$(grep -m1 '^package ' $d/demo_test.go | awk '{print $2}')
  case "$pk" in
    store|store_test) pkg=ddsketch/store;;
    ddsketch|ddsketch_test) pkg=ddsketch;;
    stat|stat_test) pkg=ddsketch/stat;;
    mapping|mapping_test) pkg=ddsketch/mapping;;
    encoding|encoding_test) pkg=ddsketch/encoding;;
    dataset|dataset_test) pkg=dataset;;
    *) pkg=ddsketch;;
  esac
  /verif/tools/verify_seed.sh $d $pkg > $out 2>&1
done
