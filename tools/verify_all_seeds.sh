#!/bin/bash
# usage: tools/verify_all_seeds.sh [base dir (default /tmp/seedout)]
# verifies every <base>/<id>/<X> seed not yet verified; writes <base>/verify/<id>_<X>.log
base="${1:-/tmp/seedout}"
mkdir -p $base/verify
for d in $base/C*/[A-N]; do
  id=$(basename $(dirname $d)); x=$(basename $d)
  out=$base/verify/${id}_${x}.log
  [ -e "$out" ] && continue
  [ -f "$d/patch.diff" ] && [ -f "$d/demo_test.go" ] || continue
  : > $out
  pk=$(grep -m1 '^package ' $d/demo_test.go | awk '{print $2}')
  case "$pk" in
    store|store_test) pkg=ddsketch/store;;
    ddsketch|ddsketch_test) pkg=ddsketch;;
    stat|stat_test) pkg=ddsketch/stat;;
    mapping|mapping_test) pkg=ddsketch/mapping;;
    encoding|encoding_test) pkg=ddsketch/encoding;;
    dataset|dataset_test) pkg=dataset;;
    *) pkg=ddsketch;;
  esac
  /verif/tools/verify_seed.sh $d $pkg > $out 2>&1
done
